#!/bin/bash
# coverage.sh — COVERAGE AUDIT of the correspondence runs (development aid, NOT a registered check).
#
# Builds an instrumented copy of the harness (all engines in one binary) against a SNAPSHOT of /repo, runs every
# property's quick-tier generators (seed 1, plus corpus/*.jsonl) through `exec`, merges the profiles per property
# and overall, and prints which functions / code regions of the files each property is anchored in
# (properties.jsonl -> anchors.files) its own run never executes, and which no engine executes.
#
#   tools/coverage.sh            full audit into /tmp/cov (build output removed at the end)
#   KEEP=1 tools/coverage.sh     keep /tmp/cov/target (1.3 GB) for re-runs
#   PROPS="C12 C13" …            only these properties (the "no engine" columns are then relative to that subset)
#   SEED=7 TIER=thorough …       another seed / tier
#   STEPS="snap build run merge report"   run only some steps (default: all)
#
# Everything lives under $COV (/tmp/cov): repo/ harness/ (snapshots), target/, cases/, prof/, report/.
# Never writes to /repo or /verif, never runs git, never touches /verif/harness/target or lean/Generated.
#
# Notes (learnt the hard way, 2026-09-26):
#  * the nightly toolchain cannot build the dependency tree (ahash 0.8.6 x `feature(stdsimd)`); `-C instrument-coverage`
#    is stable, so the build uses the stable toolchain (LLVM 22.1.2) and the nightly's llvm-profdata / llvm-cov
#    (LLVM 22.1.4: same profile format).  Without nightly there is no `-Zcoverage-options=branch`: "branch regions"
#    are the code regions (blocks, `?` exits, match arms, closures) with count 0 inside executed functions.
#  * /repo is shared: other engineers apply seeded changes to it for a minute at a time.  The audit therefore builds
#    from a copy, and refuses the copy while any kept seed (seeded/*/patch.diff) is applied in it
#    (applied = reverse applies with zero fuzz AND forward does not; `patch -R --dry-run` WITH fuzz gives false positives).
#  * SIGKILLed children (C06K) and crash probes (C19) never run the atexit profile writer: the build uses
#    `-runtime-counter-relocation` and LLVM_PROFILE_FILE carries `%c` (continuous mode: counters live in the mmapped file).
#  * the c20 global allocator does not disturb the profiling runtime (it allocates with malloc, not through Rust).
set -u
COV=${COV:-/tmp/cov}
VERIF=${VERIF:-/verif}
REPO=${REPO:-/repo}
SEED=${SEED:-1}
TIER=${TIER:-quick}
STEPS=${STEPS:-snap build run merge report}
TOOLCHAIN=${TOOLCHAIN:-stable}
export CARGO_NET_OFFLINE=true
LLVM_BIN=${LLVM_BIN:-$(ls -d ~/.rustup/toolchains/*/lib/rustlib/*/bin 2>/dev/null | while read d; do [ -x $d/llvm-cov ] && echo $d; done | head -1)}
[ -x "$LLVM_BIN/llvm-cov" ] || { echo "no llvm-cov / llvm-profdata found under ~/.rustup/toolchains (set LLVM_BIN)"; exit 2; }
H=$COV/askar_harness.cov      # copy of the instrumented binary (survives the removal of target/)
mkdir -p $COV/cases $COV/prof $COV/report $COV/trash
has() { case " $STEPS " in *" $1 "*) return 0;; esac; return 1; }

# ------------------------------------------------------------------------------------------------ snapshot
seed_applied() {  # prints the kept seeds that are applied in directory $1
  for s in $VERIF/seeded/C*/patch.diff; do
    if patch -R --dry-run -s -f -F0 -p1 -d $1 < $s >/dev/null 2>&1 && ! patch --dry-run -s -f -F0 -p1 -d $1 < $s >/dev/null 2>&1; then echo $s; fi
  done
}
if has snap; then
  for attempt in 1 2 3 4 5 6; do
    rm -rf $COV/repo $COV/harness; mkdir -p $COV/repo $COV/harness/.cargo
    tar -C $REPO --exclude=./target --exclude=./.git --exclude=./wrappers -cf - . | tar -C $COV/repo -xf -
    a=$(seed_applied $COV/repo)
    [ -z "$a" ] && break
    echo "snapshot holds a seeded change ($a); waiting 45 s"; sleep 45
  done
  [ -z "$a" ] || { echo "could not get a clean snapshot of $REPO"; exit 2; }
  head=$(cat $REPO/.git/HEAD); case "$head" in "ref: "*) r=${head#ref: }; head=$(cat $REPO/.git/$r 2>/dev/null || grep " $r\$" $REPO/.git/packed-refs | cut -d' ' -f1);; esac
  echo "$head" > $COV/repo.commit
  (cd $COV/repo && find . -type f | sort | xargs sha256sum) > $COV/repo.sha256
  cp -r $VERIF/harness/src $VERIF/harness/Cargo.toml $VERIF/harness/Cargo.lock $COV/harness/
  sed -i "s#path = \"/repo#path = \"$COV/repo#" $COV/harness/Cargo.toml
  grep -rl 'include_str!("/repo/' $COV/harness/src | xargs -r sed -i "s#include_str!(\"/repo/#include_str!(\"$COV/repo/#"
  printf '[net]\noffline = true\n' > $COV/harness/.cargo/config.toml
  echo "snapshot of $REPO at $(cat $COV/repo.commit) (+ working tree) and of the harness sources taken"
fi

# ------------------------------------------------------------------------------------------------ build
if has build; then
  # only the three /repo crates and the harness are instrumented (RUSTC_WRAPPER): with argon2 / sqlx / the curve crates
  # instrumented too, C02 took 129 s instead of 7 s and C08 did not finish in 7 min (16 threads on mmapped counters)
  cat > $COV/rustc-wrap.sh <<'WRAP'
#!/bin/sh
rustc=$1; shift
case " $* " in
  *" --crate-name aries_askar "*|*" --crate-name askar_storage "*|*" --crate-name askar_crypto "*|*" --crate-name askar_harness "*)
    exec "$rustc" "$@" -C instrument-coverage -C llvm-args=-runtime-counter-relocation ;;
  *) exec "$rustc" "$@" ;;
esac
WRAP
  chmod +x $COV/rustc-wrap.sh
  FLAGS="--cfg hyperledger_aries_askar_verif"     # what /verif/harness/.cargo/config.toml sets
  feats=$(sed -n 's/^default = \[\(.*\)\]/\1/p' $COV/harness/Cargo.toml | tr -d '" ' | tr ',' ' ')
  : > $COV/report/build.txt
  while :; do
    echo "building features: $feats" | tee -a $COV/report/build.txt
    (cd $COV/harness && RUSTC_WRAPPER=$COV/rustc-wrap.sh LLVM_PROFILE_FILE=$COV/trash/build-%p.profraw RUSTFLAGS="$FLAGS" CARGO_TARGET_DIR=$COV/target \
       cargo +$TOOLCHAIN build --offline --no-default-features --features "$(echo $feats | tr ' ' ',')" > $COV/report/build.log 2>&1) && break
    # a module that is mid-change by somebody else: drop its feature and say so
    bad=$(grep -oE -- '--> src/(c[0-9]+[a-z]*)(\.rs|/)' $COV/report/build.log | sed -E 's#--> src/##; s#(\.rs|/)$##' | sort -u | head -1)
    [ -n "$bad" ] && echo " $feats " | grep -q " $bad " || { tail -40 $COV/report/build.log; echo "instrumented build failed"; exit 2; }
    echo "module $bad does not build: feature dropped" | tee -a $COV/report/build.txt
    feats=$(echo " $feats " | sed "s/ $bad / /")
  done
  rm -rf $COV/trash/*
  cp $COV/target/debug/askar_harness $H
  echo "$feats" > $COV/features
fi

# ------------------------------------------------------------------------------------------------ run
# property -> generators (tools/props.py + tools/propcfg/*.py; C04S is C04's additional engine, C06K is in C06's list)
python3 - "$VERIF" > $COV/props.tsv <<'EOF'
import sys, os
sys.path.insert(0, os.path.join(sys.argv[1], "tools"))
import props
P = props.PROPS
owner = {}
for p, c in P.items():
    for e in c.get("extra_engines", []):
        owner[e] = p
for p in sorted(P):
    if p in owner:
        continue
    gens = list(P[p]["gens"])
    feats = [P[p].get("feature") or ""]
    for e in P[p].get("extra_engines", []):
        gens += P[e]["gens"]; feats.append(P[e].get("feature") or "")
    print(p, ",".join(gens), ",".join(f for f in feats if f), sep="\t")
EOF
PROPS_ALL=$(cut -f1 $COV/props.tsv)
PROPS=${PROPS:-$PROPS_ALL}
if has run; then
  [ -x $H ] || { echo "no instrumented binary ($H): run the build step"; exit 2; }
  export VERIF_PAGE_SIZE=$(sed -n 's/^pub const PAGE_SIZE: usize = \([0-9]*\);/\1/p' $COV/repo/askar-storage/src/backend/db_utils.rs)
  export VERIF_MODEL_C09=$VERIF/lean/.lake/build/bin/askar_model_c09 ASKAR_C13_SPEC_BIN=$VERIF/lean/.lake/build/bin/askar_model_c13 VERIF_GOLDEN=$VERIF/golden
  [ -x $ASKAR_C13_SPEC_BIN ] || export ASKAR_C13_SPEC=off
  built=" $(cat $COV/features 2>/dev/null) "
  : > $COV/report/runs.tsv
  for p in $PROPS; do
    gens=$(grep -P "^$p\t" $COV/props.tsv | cut -f2 | tr ',' ' ')
    rm -rf $COV/prof/$p; mkdir -p $COV/prof/$p
    : > $COV/cases/$p.jsonl
    for f in $VERIF/corpus/$p/*.jsonl; do [ -f "$f" ] && grep -v '^\s*$' $f >> $COV/cases/$p.jsonl; done
    for g in $gens; do
      LLVM_PROFILE_FILE=$COV/trash/gen-%p.profraw $H gen $g --seed $SEED --tier $TIER >> $COV/cases/$p.jsonl 2>> $COV/report/run-$p.err || echo "gen $g failed (engine not built?)" | tee -a $COV/report/run-$p.err
    done
    n=$(wc -l < $COV/cases/$p.jsonl)
    t0=$(date +%s)
    LLVM_PROFILE_FILE="$COV/prof/$p/$p-%p-%m%c.profraw" VERIF_SCRATCH=$COV/scratch-$p $H exec --threads 16 < $COV/cases/$p.jsonl > $COV/cases/$p.out 2>> $COV/report/run-$p.err
    t1=$(date +%s)
    nres=$(wc -l < $COV/cases/$p.out); nfail=$(grep -vc '"oracle":\[\]' $COV/cases/$p.out)
    printf "%s\t%s\t%s\t%s\t%s\t%s\n" $p "$gens" $n $nres $nfail $((t1-t0)) | tee -a $COV/report/runs.tsv
    rm -rf $COV/scratch-$p $COV/trash/*
  done
fi

# ------------------------------------------------------------------------------------------------ merge
if has merge; then
  for p in $PROPS; do
    ls $COV/prof/$p/*.profraw >/dev/null 2>&1 || continue
    $LLVM_BIN/llvm-profdata merge -sparse $COV/prof/$p/*.profraw -o $COV/prof/$p.profdata 2>> $COV/report/merge.err
  done
  $LLVM_BIN/llvm-profdata merge -sparse $(for p in $PROPS; do [ -f $COV/prof/$p.profdata ] && echo $COV/prof/$p.profdata; done) -o $COV/prof/ALL.profdata
fi

# ------------------------------------------------------------------------------------------------ report
if has report; then
  IGN='(/\.cargo/|/rustc/|/harness/src/|backend/postgres|/tests/|/benches/)'
  for p in $PROPS ALL; do
    [ -f $COV/prof/$p.profdata ] || continue
    $LLVM_BIN/llvm-cov export -format=text -skip-expansions -instr-profile=$COV/prof/$p.profdata -ignore-filename-regex="$IGN" $H > $COV/report/$p.json 2>> $COV/report/export.err
  done
  $LLVM_BIN/llvm-cov report -instr-profile=$COV/prof/ALL.profdata -ignore-filename-regex="$IGN" $H > $COV/report/ALL.files.txt 2>> $COV/report/export.err
  cat > $COV/analyze.py <<'EOF'
ANALYZE_PY_PLACEHOLDER
EOF
  python3 $COV/analyze.py $COV $VERIF "$PROPS"
fi

[ "${KEEP:-0}" = 1 ] || { has build && rm -rf $COV/target; }
exit 0
