#!/usr/bin/env python3
"""Writes /verif/MANIFEST.json from tools/manifest_data.py (claimed checks) — keeps the interface file valid and in step."""
import json, os, sys
sys.path.insert(0, os.path.dirname(os.path.abspath(__file__)))
import manifest_data as M

VERIF = os.path.dirname(os.path.dirname(os.path.abspath(__file__)))
ALL = [f"C{n:02d}" for n in range(1, 21)]

checks = []
for pid in ALL:
    if pid in M.CLAIMED:
        c = M.CLAIMED[pid]
        checks.append({
            "property_id": pid,
            "quick_cmd": f"./check {pid} --tier quick",
            "thorough_cmd": f"./check {pid} --tier thorough",
            "evidence_file": f"/verif/evidence/{pid}.json",
            "replay_cmd_template": f"./check {pid} --replay {{path}}",
            "engine": "lean4-proof+correspondence",
            "level_claimed": {"category": "proof", "text": c["text"], "design_ref": f"DESIGN.md section 4, {pid}"},
            "level_note": c["note"],
            "technique": c["technique"],
        })
na = [{"property_id": p, "reason": M.NOT_YET.get(p, "check not built yet in this round; an executable model exists in the design (DESIGN.md section 4) — to be claimed in a later commit")}
      for p in ALL if p not in M.CLAIMED]
manifest = {
    "version": 1,
    "setup_cmd": "./setup.sh",
    "hooks": {
        "guard": "--cfg hyperledger_aries_askar_verif",
        "enable": "harness/.cargo/config.toml sets rustflags = [\"--cfg\", \"hyperledger_aries_askar_verif\"]; the harness builds its own copy of the three crates from /repo's working tree into /verif/harness/target",
        "baseline_off_cmd": "cd /repo && cargo test --workspace --no-fail-fast --offline",
        "source_commits": M.HOOK_COMMITS,
        "add_only": True,
    },
    "engines": [
        {"name": "lean4-proof+correspondence", "path": "/verif/lean, /verif/harness, /verif/tools",
         "serves_properties": sorted(M.CLAIMED.keys()),
         "kind_free_text": "Lean 4 theorems about an executable model (lake project AskarModel), tied to /repo by (a) regeneration of the model's data part from the source (tools/extract.py) and (b) a differential correspondence run: the Rust harness runs generated cases on the real code in-process, the compiled Lean driver runs the same cases on the model, outputs are compared, disagreements are shrunk and searched for a property-violating input"},
    ],
    "checks": checks,
    "not_applicable": na,
    "notes": M.NOTES,
}
json.dump(manifest, open(os.path.join(VERIF, "MANIFEST.json"), "w"), indent=1)
print(f"{len(checks)} checks claimed, {len(na)} not claimed")
